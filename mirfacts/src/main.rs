// mirfacts: rustc_private driver that exports the type-checked program (MIR with resolved
// callees, constants, ADT layouts, trait impls) of one crate as a single JSON fact file.
// Used as RUSTC_WORKSPACE_WRAPPER; no libmelda code is executed.
#![feature(rustc_private)]
#![allow(clippy::all)]

extern crate rustc_abi;
extern crate rustc_driver;
extern crate rustc_hir;
extern crate rustc_interface;
extern crate rustc_middle;
extern crate rustc_session;
extern crate rustc_span;

use rustc_driver::{Callbacks, Compilation};
use rustc_hir::def::DefKind;
use rustc_hir::def_id::{DefId, LocalDefId};
use rustc_interface::interface::Compiler;
use rustc_middle::mir::interpret::{GlobalAlloc, Scalar};
use rustc_middle::mir::*;
use rustc_middle::ty::print::with_no_trimmed_paths;
use rustc_middle::ty::{self, GenericArgsRef, Instance, Ty, TyCtxt};
use std::collections::BTreeMap;
use std::fmt::Write as _;

// ---------------------------------------------------------------- tiny JSON
#[derive(Clone)]
enum J {
    Null,
    B(bool),
    I(i128),
    S(String),
    A(Vec<J>),
    O(Vec<(String, J)>),
}

fn esc(s: &str, out: &mut String) {
    out.push('"');
    for c in s.chars() {
        match c {
            '"' => out.push_str("\\\""),
            '\\' => out.push_str("\\\\"),
            '\n' => out.push_str("\\n"),
            '\r' => out.push_str("\\r"),
            '\t' => out.push_str("\\t"),
            c if (c as u32) < 0x20 => {
                let _ = write!(out, "\\u{:04x}", c as u32);
            }
            c => out.push(c),
        }
    }
    out.push('"');
}

impl J {
    fn write(&self, out: &mut String) {
        match self {
            J::Null => out.push_str("null"),
            J::B(b) => out.push_str(if *b { "true" } else { "false" }),
            J::I(i) => {
                let _ = write!(out, "{}", i);
            }
            J::S(s) => esc(s, out),
            J::A(v) => {
                out.push('[');
                for (i, x) in v.iter().enumerate() {
                    if i > 0 {
                        out.push(',');
                    }
                    x.write(out);
                }
                out.push(']');
            }
            J::O(v) => {
                out.push('{');
                for (i, (k, x)) in v.iter().enumerate() {
                    if i > 0 {
                        out.push(',');
                    }
                    esc(k, out);
                    out.push(':');
                    x.write(out);
                }
                out.push('}');
            }
        }
    }
}

fn s<T: Into<String>>(x: T) -> J {
    J::S(x.into())
}
macro_rules! obj {
    ($($k:expr => $v:expr),* $(,)?) => { J::O(vec![$(($k.to_string(), $v)),*]) };
}

// ---------------------------------------------------------------- helpers
fn path(tcx: TyCtxt<'_>, d: DefId) -> String {
    with_no_trimmed_paths!(tcx.def_path_str(d))
}
fn path_args<'tcx>(tcx: TyCtxt<'tcx>, d: DefId, a: GenericArgsRef<'tcx>) -> String {
    with_no_trimmed_paths!(tcx.def_path_str_with_args(d, a))
}
fn tystr(t: Ty<'_>) -> String {
    with_no_trimmed_paths!(format!("{}", t))
}

struct Cx<'tcx> {
    tcx: TyCtxt<'tcx>,
    adts: BTreeMap<String, J>,
}

impl<'tcx> Cx<'tcx> {
    fn note_adt(&mut self, t: Ty<'tcx>) -> Option<String> {
        let tcx = self.tcx;
        let t = t.peel_refs();
        if let ty::Adt(def, _) = t.kind() {
            let p = path(tcx, def.did());
            if !self.adts.contains_key(&p) {
                let mut variants = vec![];
                if def.is_enum() {
                    for (vi, d) in def.discriminants(tcx) {
                        let v = def.variant(vi);
                        variants.push(obj! {
                            "name" => s(v.name.to_string()),
                            "idx" => J::I(vi.as_u32() as i128),
                            "discr" => J::I(d.val as i128),
                            "fields" => J::A(v.fields.iter().map(|f| s(f.name.to_string())).collect()),
                        });
                    }
                } else if def.is_struct() {
                    let v = def.non_enum_variant();
                    variants.push(obj! {
                        "name" => s(v.name.to_string()),
                        "idx" => J::I(0),
                        "discr" => J::I(0),
                        "fields" => J::A(v.fields.iter().map(|f| s(f.name.to_string())).collect()),
                    });
                }
                let kind = if def.is_enum() {
                    "enum"
                } else if def.is_struct() {
                    "struct"
                } else {
                    "union"
                };
                self.adts.insert(
                    p.clone(),
                    obj! {"kind" => s(kind), "variants" => J::A(variants)},
                );
            }
            Some(p)
        } else {
            None
        }
    }

    fn place(&mut self, body: &Body<'tcx>, p: &Place<'tcx>) -> J {
        self.place_ref(body, p.local, p.projection.as_ref())
    }

    fn place_ref(&mut self, body: &Body<'tcx>, local: Local, proj: &[PlaceElem<'tcx>]) -> J {
        let tcx = self.tcx;
        let mut pty = rustc_middle::mir::PlaceTy::from_ty(body.local_decls[local].ty);
        let mut out = vec![];
        for elem in proj {
            let e = match elem {
                ProjectionElem::Deref => obj! {"k" => s("deref")},
                ProjectionElem::Field(f, fty) => {
                    let mut name = format!("{}", f.as_u32());
                    let mut owner = String::new();
                    match pty.ty.kind() {
                        ty::Adt(def, _) => {
                            let vi = pty.variant_index.unwrap_or(rustc_abi::FIRST_VARIANT);
                            if def.is_enum() || def.is_struct() {
                                let v = def.variant(vi);
                                if let Some(fd) = v.fields.get(*f) {
                                    name = fd.name.to_string();
                                }
                                owner = path(tcx, def.did());
                                if def.is_enum() {
                                    owner = format!("{}::{}", owner, v.name);
                                }
                            }
                        }
                        ty::Closure(d, _) => {
                            owner = path(tcx, *d);
                        }
                        _ => {}
                    }
                    obj! {"k" => s("field"), "i" => J::I(f.as_u32() as i128), "n" => s(name),
                    "of" => s(owner), "ty" => s(tystr(*fty))}
                }
                ProjectionElem::Index(l) => obj! {"k" => s("index"), "l" => J::I(l.as_u32() as i128)},
                ProjectionElem::ConstantIndex { offset, from_end, .. } => {
                    obj! {"k" => s("constidx"), "off" => J::I(*offset as i128), "from_end" => J::B(*from_end)}
                }
                ProjectionElem::Subslice { from, to, from_end } => {
                    obj! {"k" => s("subslice"), "from" => J::I(*from as i128), "to" => J::I(*to as i128), "from_end" => J::B(*from_end)}
                }
                ProjectionElem::Downcast(name, vi) => {
                    let n = match name {
                        Some(n) => n.to_string(),
                        None => format!("{}", vi.as_u32()),
                    };
                    obj! {"k" => s("downcast"), "v" => s(n), "i" => J::I(vi.as_u32() as i128)}
                }
                other => obj! {"k" => s("other"), "dbg" => s(format!("{:?}", other))},
            };
            out.push(e);
            pty = pty.projection_ty(tcx, *elem);
        }
        obj! {"l" => J::I(local.as_u32() as i128), "p" => J::A(out)}
    }

    fn bytes_of_alloc(&self, alloc_id: rustc_middle::mir::interpret::AllocId, off: usize, len: Option<usize>) -> Option<Vec<u8>> {
        match self.tcx.try_get_global_alloc(alloc_id)? {
            GlobalAlloc::Memory(a) => {
                let a = a.inner();
                let total = a.len();
                let end = match len {
                    Some(l) => off + l,
                    None => total,
                };
                if end > total || off > end {
                    return None;
                }
                Some(a.inspect_with_uninit_and_ptr_outside_interpreter(off..end).to_vec())
            }
            _ => None,
        }
    }

    fn bytes_json(b: &[u8]) -> J {
        match std::str::from_utf8(b) {
            Ok(st) => obj! {"str" => s(st), "bytes" => J::A(b.iter().map(|x| J::I(*x as i128)).collect())},
            Err(_) => obj! {"bytes" => J::A(b.iter().map(|x| J::I(*x as i128)).collect())},
        }
    }

    fn callee(&mut self, body: &Body<'tcx>, def_id: DefId, args: GenericArgsRef<'tcx>) -> J {
        let tcx = self.tcx;
        let mut o: Vec<(String, J)> = vec![];
        o.push(("path".into(), s(path(tcx, def_id))));
        o.push(("full".into(), s(path_args(tcx, def_id, args))));
        o.push(("krate".into(), s(tcx.crate_name(def_id.krate).to_string())));
        o.push((
            "args".into(),
            J::A(args.iter().map(|a| s(with_no_trimmed_paths!(format!("{}", a)))).collect()),
        ));
        o.push(("name".into(), s(tcx.item_name(def_id).to_string())));
        // closures / fn items mentioned in generic args
        let mut clos = vec![];
        for a in args.iter() {
            for inner in a.walk() {
                if let Some(t) = inner.as_type() {
                    match t.kind() {
                        ty::Closure(d, _) | ty::FnDef(d, _) | ty::CoroutineClosure(d, _) => {
                            let p = path(tcx, *d);
                            if !clos.contains(&p) {
                                clos.push(p);
                            }
                        }
                        _ => {}
                    }
                }
            }
        }
        o.push(("fnargs".into(), J::A(clos.into_iter().map(s).collect())));
        if let Some(assoc) = tcx.opt_associated_item(def_id) {
            if let Some(tr) = assoc.trait_container(tcx) {
                o.push(("trait".into(), s(path(tcx, tr))));
                if args.len() > 0 {
                    if let Some(t) = args[0].as_type() {
                        o.push(("self_ty".into(), s(tystr(t))));
                    }
                }
            } else if let Some(im) = assoc.impl_container(tcx) {
                let st = tcx.type_of(im).instantiate_identity().skip_norm_wip();
                o.push(("impl_self".into(), s(tystr(st))));
                if let Some(p) = self.note_adt(st) {
                    o.push(("impl_adt".into(), s(p)));
                }
            }
        }
        // resolve trait methods to impls where the types are concrete enough
        let typing_env = body.typing_env(tcx);
        let norm_args = tcx.try_normalize_erasing_regions(typing_env, ty::Unnormalized::new_wip(args));
        if let Ok(nargs) = norm_args {
            if let Ok(Some(inst)) = Instance::try_resolve(tcx, typing_env, def_id, nargs) {
                let rd = inst.def_id();
                let virt = matches!(inst.def, ty::InstanceKind::Virtual(..));
                if virt {
                    o.push(("virtual".into(), J::B(true)));
                } else if rd != def_id {
                    o.push(("resolved".into(), s(path(tcx, rd))));
                    o.push(("resolved_full".into(), s(path_args(tcx, rd, inst.args))));
                }
            }
        }
        J::O(o)
    }

    fn constant(&mut self, body: &Body<'tcx>, c: &ConstOperand<'tcx>) -> J {
        let tcx = self.tcx;
        let cty = c.const_.ty();
        let mut o: Vec<(String, J)> = vec![("k".into(), s("const")), ("ty".into(), s(tystr(cty)))];
        match cty.kind() {
            ty::FnDef(d, a) => {
                o.push(("fn".into(), self.callee(body, *d, a)));
                return J::O(o);
            }
            ty::Closure(d, _) => {
                o.push(("closure".into(), s(path(tcx, *d))));
                return J::O(o);
            }
            _ => {}
        }
        if let Const::Unevaluated(uv, _) = c.const_ {
            if let Some(p) = uv.promoted {
                o.push(("promoted".into(), J::I(p.as_u32() as i128)));
                return J::O(o);
            }
            o.push(("def".into(), s(path(tcx, uv.def))));
        }
        let typing_env = body.typing_env(tcx);
        if let Ok(v) = c.const_.eval(tcx, typing_env, c.span) {
            self.constval(&mut o, v, cty);
        }
        J::O(o)
    }

    fn constval(&mut self, o: &mut Vec<(String, J)>, v: ConstValue, cty: Ty<'tcx>) {
        match v {
            ConstValue::Scalar(Scalar::Int(i)) => {
                let bits = i.to_bits(i.size());
                let val: i128 = if cty.is_signed() {
                    i.size().sign_extend(bits) as i128
                } else {
                    bits as i128
                };
                o.push(("int".into(), J::I(val)));
                if cty.is_bool() {
                    o.push(("bool".into(), J::B(bits != 0)));
                }
                if let Some(p) = self.note_adt(cty) {
                    o.push(("adt".into(), s(p)));
                }
            }
            ConstValue::Scalar(Scalar::Ptr(ptr, _)) => {
                let (prov, off) = ptr.prov_and_relative_offset();
                if let Some(b) = self.bytes_of_alloc(prov.alloc_id(), off.bytes() as usize, None) {
                    if b.len() <= 4096 {
                        o.push(("mem".into(), Self::bytes_json(&b)));
                    }
                }
            }
            ConstValue::ZeroSized => {
                o.push(("zst".into(), J::B(true)));
            }
            ConstValue::Slice { alloc_id, meta } => {
                if let Some(b) = self.bytes_of_alloc(alloc_id, 0, Some(meta as usize)) {
                    o.push(("mem".into(), Self::bytes_json(&b)));
                }
            }
            ConstValue::Indirect { alloc_id, offset } => {
                if let Some(b) = self.bytes_of_alloc(alloc_id, offset.bytes() as usize, None) {
                    if b.len() <= 4096 {
                        o.push(("mem".into(), Self::bytes_json(&b)));
                    }
                }
            }
        }
    }

    fn operand(&mut self, body: &Body<'tcx>, op: &Operand<'tcx>) -> J {
        match op {
            Operand::Copy(p) => obj! {"k" => s("copy"), "pl" => self.place(body, p)},
            Operand::Move(p) => obj! {"k" => s("move"), "pl" => self.place(body, p)},
            Operand::Constant(c) => self.constant(body, c),
            #[allow(unreachable_patterns)]
            other => obj! {"k" => s("other"), "dbg" => s(format!("{:?}", other))},
        }
    }

    fn rvalue(&mut self, body: &Body<'tcx>, rv: &Rvalue<'tcx>) -> J {
        let tcx = self.tcx;
        match rv {
            Rvalue::Use(op, ..) => obj! {"k" => s("use"), "op" => self.operand(body, op)},
            Rvalue::Repeat(op, _) => obj! {"k" => s("repeat"), "op" => self.operand(body, op)},
            Rvalue::Ref(_, bk, p) => {
                let m = matches!(bk, BorrowKind::Mut { .. });
                obj! {"k" => s("ref"), "mut" => J::B(m), "pl" => self.place(body, p)}
            }
            Rvalue::RawPtr(k, p) => {
                obj! {"k" => s("rawptr"), "mut" => J::B(format!("{:?}", k).contains("Mut")), "pl" => self.place(body, p)}
            }
            Rvalue::Cast(kind, op, t) => {
                obj! {"k" => s("cast"), "kind" => s(format!("{:?}", kind)), "op" => self.operand(body, op), "ty" => s(tystr(*t))}
            }
            Rvalue::BinaryOp(bop, ab) => {
                let (a, b) = &**ab;
                obj! {"k" => s("binop"), "op" => s(format!("{:?}", bop)), "a" => self.operand(body, a), "b" => self.operand(body, b)}
            }
            Rvalue::UnaryOp(uop, a) => {
                obj! {"k" => s("unop"), "op" => s(format!("{:?}", uop)), "a" => self.operand(body, a)}
            }
            Rvalue::Discriminant(p) => {
                let pt = p.ty(body, tcx).ty;
                let adt = self.note_adt(pt);
                obj! {"k" => s("discr"), "pl" => self.place(body, p), "adt" => adt.map(s).unwrap_or(J::Null), "ty" => s(tystr(pt))}
            }
            Rvalue::Aggregate(kind, ops) => {
                let mut o: Vec<(String, J)> = vec![("k".into(), s("agg"))];
                match &**kind {
                    AggregateKind::Adt(d, vi, args, _, _) => {
                        let def = tcx.adt_def(*d);
                        let t = Ty::new_adt(tcx, def, args);
                        let p = self.note_adt(t).unwrap_or_default();
                        o.push(("agg".into(), s("adt")));
                        o.push(("adt".into(), s(p)));
                        o.push(("variant".into(), s(def.variant(*vi).name.to_string())));
                        o.push((
                            "fields".into(),
                            J::A(def.variant(*vi).fields.iter().map(|f| s(f.name.to_string())).collect()),
                        ));
                        o.push(("ty".into(), s(tystr(t))));
                    }
                    AggregateKind::Closure(d, _) => {
                        o.push(("agg".into(), s("closure")));
                        o.push(("closure".into(), s(path(tcx, *d))));
                    }
                    AggregateKind::Tuple => o.push(("agg".into(), s("tuple"))),
                    AggregateKind::Array(_) => o.push(("agg".into(), s("array"))),
                    other => {
                        o.push(("agg".into(), s("other")));
                        o.push(("dbg".into(), s(format!("{:?}", other))));
                    }
                }
                o.push(("ops".into(), J::A(ops.iter().map(|x| self.operand(body, x)).collect())));
                J::O(o)
            }
            Rvalue::CopyForDeref(p) => obj! {"k" => s("use"), "op" => obj!{"k" => s("copy"), "pl" => self.place(body, p)}},
            other => obj! {"k" => s("other"), "dbg" => s(format!("{:?}", other))},
        }
    }

    fn line(&self, sp: rustc_span::Span) -> (i128, bool) {
        let sm = self.tcx.sess.source_map();
        let exp = sp.from_expansion();
        let sp2 = sp.source_callsite();
        let lo = sm.lookup_char_pos(sp2.lo());
        (lo.line as i128, exp)
    }

    fn body(&mut self, body: &Body<'tcx>) -> (J, J) {
        let tcx = self.tcx;
        let mut locals = vec![];
        let mut names: BTreeMap<usize, String> = BTreeMap::new();
        let mut dbg = vec![];
        for vdi in &body.var_debug_info {
            match &vdi.value {
                VarDebugInfoContents::Place(p) => {
                    if p.projection.is_empty() {
                        names.insert(p.local.as_usize(), vdi.name.to_string());
                    }
                    dbg.push(obj! {"name" => s(vdi.name.to_string()), "pl" => self.place(body, p)});
                }
                VarDebugInfoContents::Const(_) => {}
            }
        }
        for (l, d) in body.local_decls.iter_enumerated() {
            let mut o: Vec<(String, J)> = vec![("ty".into(), s(tystr(d.ty)))];
            if let Some(n) = names.get(&l.as_usize()) {
                o.push(("name".into(), s(n.clone())));
            }
            if d.mutability.is_mut() {
                o.push(("mut".into(), J::B(true)));
            }
            locals.push(J::O(o));
        }
        let mut blocks = vec![];
        for (_bb, data) in body.basic_blocks.iter_enumerated() {
            let mut stmts = vec![];
            for st in &data.statements {
                let (ln, _) = self.line(st.source_info.span);
                match &st.kind {
                    StatementKind::Assign(b) => {
                        let (pl, rv) = &**b;
                        stmts.push(obj! {"k" => s("assign"), "pl" => self.place(body, pl), "rv" => self.rvalue(body, rv), "line" => J::I(ln)});
                    }
                    StatementKind::SetDiscriminant { place, variant_index } => {
                        stmts.push(obj! {"k" => s("setdiscr"), "pl" => self.place(body, place), "i" => J::I(variant_index.as_u32() as i128), "line" => J::I(ln)});
                    }
                    StatementKind::StorageDead(l) => {
                        stmts.push(obj! {"k" => s("dead"), "l" => J::I(l.as_u32() as i128)});
                    }
                    StatementKind::StorageLive(l) => {
                        stmts.push(obj! {"k" => s("live"), "l" => J::I(l.as_u32() as i128)});
                    }
                    _ => {}
                }
            }
            let term = data.terminator();
            let (ln, exp) = self.line(term.source_info.span);
            let mut t: Vec<(String, J)> = vec![("line".into(), J::I(ln))];
            if exp {
                t.push(("exp".into(), J::B(true)));
            }
            let bbi = |b: BasicBlock| J::I(b.as_u32() as i128);
            let unw = |u: &UnwindAction| match u {
                UnwindAction::Cleanup(b) => J::I(b.as_u32() as i128),
                _ => J::Null,
            };
            match &term.kind {
                TerminatorKind::Goto { target } => {
                    t.push(("k".into(), s("goto")));
                    t.push(("target".into(), bbi(*target)));
                }
                TerminatorKind::SwitchInt { discr, targets } => {
                    t.push(("k".into(), s("switch")));
                    t.push(("discr".into(), self.operand(body, discr)));
                    let mut tv = vec![];
                    for (v, b) in targets.iter() {
                        tv.push(J::A(vec![J::I(v as i128), bbi(b)]));
                    }
                    t.push(("targets".into(), J::A(tv)));
                    t.push(("otherwise".into(), bbi(targets.otherwise())));
                    let dt = discr.ty(body, tcx);
                    t.push(("discr_ty".into(), s(tystr(dt))));
                }
                TerminatorKind::Return => t.push(("k".into(), s("return"))),
                TerminatorKind::Unreachable => t.push(("k".into(), s("unreachable"))),
                TerminatorKind::UnwindResume => t.push(("k".into(), s("resume"))),
                TerminatorKind::UnwindTerminate(_) => t.push(("k".into(), s("abort"))),
                TerminatorKind::Drop { place, target, unwind, .. } => {
                    t.push(("k".into(), s("drop")));
                    t.push(("pl".into(), self.place(body, place)));
                    t.push(("target".into(), bbi(*target)));
                    t.push(("unwind".into(), unw(unwind)));
                    let pt = place.ty(body, tcx).ty;
                    t.push(("ty".into(), s(tystr(pt))));
                }
                TerminatorKind::Call { func, args, destination, target, unwind, .. } => {
                    t.push(("k".into(), s("call")));
                    t.push(("func".into(), self.operand(body, func)));
                    t.push(("args".into(), J::A(args.iter().map(|a| self.operand(body, &a.node)).collect())));
                    t.push(("dest".into(), self.place(body, destination)));
                    t.push(("target".into(), target.map(bbi).unwrap_or(J::Null)));
                    t.push(("unwind".into(), unw(unwind)));
                }
                TerminatorKind::TailCall { func, args, .. } => {
                    t.push(("k".into(), s("tailcall")));
                    t.push(("func".into(), self.operand(body, func)));
                    t.push(("args".into(), J::A(args.iter().map(|a| self.operand(body, &a.node)).collect())));
                }
                TerminatorKind::Assert { cond, expected, target, unwind, msg } => {
                    t.push(("k".into(), s("assert")));
                    t.push(("cond".into(), self.operand(body, cond)));
                    t.push(("expected".into(), J::B(*expected)));
                    t.push(("target".into(), bbi(*target)));
                    t.push(("unwind".into(), unw(unwind)));
                    let m = format!("{:?}", msg);
                    let m = m.split('(').next().unwrap_or("").to_string();
                    t.push(("msg".into(), s(m)));
                }
                TerminatorKind::FalseEdge { real_target, .. } => {
                    t.push(("k".into(), s("goto")));
                    t.push(("target".into(), bbi(*real_target)));
                }
                TerminatorKind::FalseUnwind { real_target, .. } => {
                    t.push(("k".into(), s("goto")));
                    t.push(("target".into(), bbi(*real_target)));
                }
                other => {
                    t.push(("k".into(), s("other")));
                    t.push(("dbg".into(), s(format!("{:?}", other))));
                }
            }
            blocks.push(obj! {"stmts" => J::A(stmts), "term" => J::O(t), "cleanup" => J::B(data.is_cleanup)});
        }
        (
            obj! {"locals" => J::A(locals), "blocks" => J::A(blocks), "argc" => J::I(body.arg_count as i128)},
            J::A(dbg),
        )
    }
}

struct Cb;

impl Callbacks for Cb {
    fn after_analysis<'tcx>(&mut self, _c: &Compiler, tcx: TyCtxt<'tcx>) -> Compilation {
        let krate = tcx.crate_name(rustc_hir::def_id::LOCAL_CRATE).to_string();
        let want = std::env::var("MIRFACTS_CRATES").unwrap_or_else(|_| "melda".to_string());
        if !want.split(',').any(|w| w == krate) {
            return Compilation::Continue;
        }
        let outdir = match std::env::var("MIRFACTS_OUT") {
            Ok(d) => d,
            Err(_) => return Compilation::Continue,
        };
        let mut cx = Cx { tcx, adts: BTreeMap::new() };
        let sm = tcx.sess.source_map();

        // ---- bodies
        let mut bodies = vec![];
        let mut keys: Vec<LocalDefId> = tcx.mir_keys(()).iter().copied().collect();
        keys.sort_by_key(|k| path(tcx, k.to_def_id()));
        for ldid in keys {
            let did = ldid.to_def_id();
            let kind = tcx.def_kind(did);
            let kname = match kind {
                DefKind::Fn => "fn",
                DefKind::AssocFn => "assoc_fn",
                DefKind::Closure => "closure",
                _ => continue,
            };
            if tcx.is_constructor(did) {
                continue;
            }
            let body = tcx.optimized_mir(did);
            let mut o: Vec<(String, J)> = vec![];
            o.push(("path".into(), s(path(tcx, did))));
            o.push(("kind".into(), s(kname)));
            let sp = tcx.def_span(did);
            let lo = sm.lookup_char_pos(body.span.lo());
            let hi = sm.lookup_char_pos(body.span.hi());
            let _ = sp;
            o.push(("file".into(), s(format!("{}", lo.file.name.prefer_local_unconditionally()))));
            o.push(("line".into(), J::I(lo.line as i128)));
            o.push(("line_hi".into(), J::I(hi.line as i128)));
            if matches!(kind, DefKind::Fn | DefKind::AssocFn) {
                o.push(("pub".into(), J::B(tcx.visibility(did).is_public())));
                o.push(("name".into(), s(tcx.item_name(did).to_string())));
                let sig = tcx.fn_sig(did).instantiate_identity().skip_norm_wip();
                o.push(("sig".into(), s(with_no_trimmed_paths!(format!("{}", sig)))));
            }
            if kind == DefKind::Closure {
                o.push(("parent".into(), s(path(tcx, tcx.typeck_root_def_id(did)))));
                o.push(("direct_parent".into(), s(path(tcx, tcx.parent(did)))));
            }
            if let Some(assoc) = tcx.opt_associated_item(did) {
                if let Some(im) = assoc.impl_container(tcx) {
                    let st = tcx.type_of(im).instantiate_identity().skip_norm_wip();
                    o.push(("impl_self".into(), s(tystr(st))));
                    if let Some(p) = cx.note_adt(st) {
                        o.push(("impl_adt".into(), s(p)));
                    }
                    if let Some(tr) = tcx.impl_opt_trait_ref(im) {
                        let tr = tr.instantiate_identity().skip_norm_wip();
                        o.push(("impl_trait".into(), s(path(tcx, tr.def_id))));
                    }
                }
            }
            let (b, dbg) = cx.body(body);
            o.push(("mir".into(), b));
            o.push(("debug".into(), dbg));
            // promoted constants
            let mut proms = vec![];
            for pb in tcx.promoted_mir(did).iter() {
                let (b, _) = cx.body(pb);
                proms.push(b);
            }
            o.push(("promoted".into(), J::A(proms)));
            bodies.push(J::O(o));
        }

        // ---- named consts / statics in the crate
        let mut consts = vec![];
        for ldid in tcx.hir_crate_items(()).definitions() {
            let did = ldid.to_def_id();
            match tcx.def_kind(did) {
                DefKind::Const { .. } => {
                    let t = tcx.type_of(did).instantiate_identity().skip_norm_wip();
                    let mut o: Vec<(String, J)> = vec![("path".into(), s(path(tcx, did))), ("ty".into(), s(tystr(t)))];
                    if let Ok(v) = tcx.const_eval_poly(did) {
                        cx.constval(&mut o, v, t);
                    }
                    consts.push(J::O(o));
                }
                _ => {}
            }
        }

        // ---- local ADTs (structs/enums with field types)
        let mut structs = vec![];
        for ldid in tcx.hir_crate_items(()).definitions() {
            let did = ldid.to_def_id();
            if matches!(tcx.def_kind(did), DefKind::Struct | DefKind::Enum) {
                let def = tcx.adt_def(did);
                let mut vs = vec![];
                for v in def.variants() {
                    let fs: Vec<J> = v
                        .fields
                        .iter()
                        .map(|f| {
                            let ft = tcx.type_of(f.did).instantiate_identity().skip_norm_wip();
                            obj! {"name" => s(f.name.to_string()), "ty" => s(tystr(ft)), "pub" => J::B(tcx.visibility(f.did).is_public())}
                        })
                        .collect();
                    vs.push(obj! {"name" => s(v.name.to_string()), "fields" => J::A(fs)});
                }
                structs.push(obj! {"path" => s(path(tcx, did)), "variants" => J::A(vs),
                "kind" => s(if def.is_enum() {"enum"} else {"struct"}), "pub" => J::B(tcx.visibility(did).is_public())});
            }
        }

        // ---- traits and impls
        let mut traits = vec![];
        for ldid in tcx.hir_crate_items(()).definitions() {
            let did = ldid.to_def_id();
            if tcx.def_kind(did) == DefKind::Trait {
                let items: Vec<J> = tcx
                    .associated_items(did)
                    .in_definition_order()
                    .map(|a| {
                        let has_default = a.defaultness(tcx).has_value();
                        obj! {"name" => s(a.name().to_string()), "default" => J::B(has_default)}
                    })
                    .collect();
                traits.push(obj! {"path" => s(path(tcx, did)), "items" => J::A(items)});
            }
        }
        let mut impls = vec![];
        for (tr, ims) in tcx.all_local_trait_impls(()).iter() {
            for im in ims {
                let imd = im.to_def_id();
                let st = tcx.type_of(imd).instantiate_identity().skip_norm_wip();
                let mut methods = vec![];
                for a in tcx.associated_items(imd).in_definition_order() {
                    methods.push(obj! {"name" => s(a.name().to_string()), "path" => s(path(tcx, a.def_id))});
                }
                impls.push(obj! {"trait" => s(path(tcx, *tr)), "self_ty" => s(tystr(st)),
                "adt" => cx.note_adt(st).map(s).unwrap_or(J::Null), "methods" => J::A(methods)});
            }
        }

        // ---- cfg
        let mut feats = vec![];
        for (name, val) in tcx.sess.config.iter() {
            if name.as_str() == "feature" {
                if let Some(v) = val {
                    feats.push(v.to_string());
                }
            }
        }
        feats.sort();

        let adts = J::O(cx.adts.iter().map(|(k, v)| (k.clone(), v.clone())).collect());
        let root = obj! {
            "crate" => s(krate.clone()),
            "features" => J::A(feats.into_iter().map(s).collect()),
            "rustc" => s(option_env!("CFG_VERSION").unwrap_or("nightly")),
            "bodies" => J::A(bodies),
            "consts" => J::A(consts),
            "structs" => J::A(structs),
            "traits" => J::A(traits),
            "impls" => J::A(impls),
            "adts" => adts,
        };
        let mut out = String::with_capacity(1 << 22);
        root.write(&mut out);
        let tag = std::env::var("MIRFACTS_TAG").unwrap_or_else(|_| "default".to_string());
        let file = format!("{}/{}.{}.json", outdir, krate, tag);
        let tmp = format!("{}.tmp.{}", file, std::process::id());
        std::fs::write(&tmp, out).expect("mirfacts: cannot write fact file");
        std::fs::rename(&tmp, &file).expect("mirfacts: cannot rename fact file");
        Compilation::Continue
    }
}

fn main() {
    let mut args: Vec<String> = std::env::args().collect();
    // invoked as RUSTC_WORKSPACE_WRAPPER: argv[1] is the real rustc path
    if args.len() > 1 && (args[1].ends_with("rustc") || args[1].contains("/rustc")) {
        args.remove(1);
    }
    rustc_driver::run_compiler(&args, &mut Cb);
}
