#!/bin/bash
cd /verif
run() { ./check $1 --tier thorough > /tmp/th-$1.txt 2>&1; echo "$1 rc=$? $(tail -1 /tmp/th-$1.txt | cut -c1-120) warn=$(grep -c SENSITIVITY-WARNING /tmp/th-$1.txt)" >> /tmp/th-summary.txt; }
: > /tmp/th-summary.txt
for p in C01 C02 C03 C04 C05 C06 C07 C08 C09 C10 C11 C12 C13 C14 C15 C16 C17 C18 C19; do
  run $p &
  while [ $(jobs -r | wc -l) -ge 4 ]; do sleep 2; done
done
wait
echo ALLDONE >> /tmp/th-summary.txt
