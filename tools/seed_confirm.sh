#!/bin/bash
# usage: tools/seed_confirm.sh <worktree> <seed dir name> <seed id> <prop>
# confirms the seed in the scratch worktree (demo passes without the patch; with it: build ok, 32 lib tests + 30 doctests pass,
# demo fails) and stores it under /verif/seeded/<seed id>/ ; the static analysis is done afterwards by tools/par_matrix.py
set -u
WT=$1; SD=$2; ID=$3; PROP=$4
V=$(cd "$(dirname "$0")/.." && pwd)
export CARGO_TARGET_DIR=$WT/target CARGO_NET_OFFLINE=true
cd "$WT" || exit 2
git checkout -q -- src
mkdir -p tests; cp "SEED/$SD/demo.rs" tests/demo.rs
t0=$(timeout 1200 cargo test --offline --test demo 2>&1 | grep -E "^test result" | tail -1)
git apply "SEED/$SD/patch.diff" || { echo "$ID PATCH DOES NOT APPLY"; exit 3; }
b=$(cargo build --offline 2>&1 | tail -1)
t1=$(timeout 900 cargo test --offline --lib 2>&1 | grep -E "^test result" | tail -1)
t1d=$(timeout 1200 cargo test --offline --doc 2>&1 | grep -E "^test result" | tail -1)
t2=$(timeout 1200 cargo test --offline --test demo 2>&1 | grep -E "^test result|panicked|timed out" | tail -2 | tr '\n' ' ')
git checkout -q -- src; rm -f tests/demo.rs
echo "== $ID"
echo "demo without patch : $t0"
echo "build with patch   : $b"
echo "lib tests w/ patch : $t1"
echo "doc tests w/ patch : $t1d"
echo "demo with patch    : $t2"
mkdir -p "$V/seeded/$ID"
cp "$WT/SEED/$SD/patch.diff" "$WT/SEED/$SD/demo.rs" "$V/seeded/$ID/"
cp "$WT/SEED/$SD/README.md" "$V/seeded/$ID/AGENT_README.md" 2>/dev/null
python3 - "$ID" "$PROP" "$t0" "$t1" "$t1d" "$t2" <<'PY'
import json,sys
i,prop,t0,t1,t1d,t2=sys.argv[1:7]
json.dump({"id":i,"property":prop,"origin":"independent sub-agent given only the property text and a scratch worktree",
 "confirmed":{"demo_without_patch":t0,"lib_tests_with_patch":t1,"doc_tests_with_patch":t1d,"demo_with_patch":t2},
 "what_i_ran":"tools/seed_confirm.sh (cargo test --offline --test demo without/with the patch in the scratch worktree; cargo test --offline --lib/--doc with the patch), then tools/par_matrix.py seeds <id> (all 19 checks on a patched scratch copy, static)",
 "caught_by":[],"needs":"see AGENT_README.md"}, open("/verif/seeded/%s/meta.json"%i,"w"), indent=1)
PY
