#!/bin/bash
# usage: tools/vcheck.sh <variant name>... ; runs all 19 checks (or $PROPS) on /tmp/vr-<name>/repo in parallel, prints alarms
PROPS=${PROPS:-C01 C02 C03 C04 C05 C06 C07 C08 C09 C10 C11 C12 C13 C14 C15 C16 C17 C18 C19}
V=$(cd "$(dirname "$0")/.." && pwd)
for n in "$@"; do
  ( out=""
    for p in $PROPS; do
      o=$(VERIF_REPO=/tmp/vr-$n/repo VERIF_OUT=/tmp/vr-$n/out $V/check $p 2>&1 | grep -E "^C[0-9]+/|Traceback|Error" | cut -c1-${WIDTH:-260})
      [ -n "$o" ] && out="$out$o"$'\n'
    done
    if [ -z "$out" ]; then echo "== $n: silent"; else echo "== $n:"; echo -n "$out"; fi ) &
done
wait
