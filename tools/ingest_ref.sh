#!/bin/bash
# usage: tools/ingest_ref.sh <worktree> <Rk>  -- store a sub-agent's refactorings under variants/agent-refactorings/<Rk>-rN
WT=$1; R=$2
V=$(cd "$(dirname "$0")/.." && pwd)
for d in "$WT"/REF/r*; do
  n=$(basename $d)
  [ -f "$d/patch.diff" ] || continue
  mkdir -p "$V/variants/agent-refactorings/$R-$n"
  cp "$d/patch.diff" "$d/README.md" "$V/variants/agent-refactorings/$R-$n/" 2>/dev/null
  echo "stored $R-$n: $(head -1 $d/README.md)"
done
