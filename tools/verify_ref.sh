#!/bin/bash
# usage: verify_ref.sh Rk : for each REF/rN patch: apply on clean src, run lib + doc tests, revert; then ingest and remove the worktree
R=$1; WT=/tmp/wt-$R
export CARGO_TARGET_DIR=$WT/target CARGO_NET_OFFLINE=true
cd $WT || exit 2
for d in REF/r*; do
  git checkout -q -- src
  if git apply $d/patch.diff; then
    l=$(timeout 900 cargo test --offline --lib 2>&1 | grep -E "^test result" | tail -1)
    t=$(timeout 1200 cargo test --offline --doc 2>&1 | grep -E "^test result" | tail -1)
    a=$(cargo check --offline --all-features 2>&1 | tail -1)
    echo "$R-$(basename $d): lib[$l] doc[$t] allfeat[$a]"
  else
    echo "$R-$(basename $d): PATCH DOES NOT APPLY"
  fi
  git checkout -q -- src
done > /tmp/vr-$R.txt 2>&1
cd /verif && tools/ingest_ref.sh $WT $R >> /tmp/vr-$R.txt 2>&1
git -C /repo worktree remove --force $WT
echo done >> /tmp/vr-$R.txt
