#!/usr/bin/env python3
"""Re-analyses every stored seed (/verif/seeded/<id>/patch.diff) with all 19 checks on a scratch copy of the
current /repo tree and rewrites meta.json's `caught_by` / `violations`. Static analysis only."""
import json, os, shutil, subprocess, sys, tempfile
V = os.path.dirname(os.path.dirname(os.path.abspath(__file__)))
PROPS = ["C%02d" % i for i in range(1, 20)]
rows = []
import re
OPEN_KNOWN = set()
for line in open(os.path.join(V, "known_findings.txt")):
    m_ = re.match(r"open:\s+property=(\S+)\s+key=(\S+)", line.strip())
    if m_:
        OPEN_KNOWN.add(m_.group(2))
only = sys.argv[1:]
for sid in sorted(os.listdir(os.path.join(V, "seeded"))):
    if only and sid not in only:
        continue
    d = os.path.join(V, "seeded", sid)
    patch = os.path.join(d, "patch.diff")
    if not os.path.exists(patch):
        continue
    s = tempfile.mkdtemp(prefix="seedmx.")
    try:
        repo = os.path.join(s, "repo")
        os.makedirs(repo)
        shutil.copytree("/repo/src", os.path.join(repo, "src"))
        for f in ("Cargo.toml", "Cargo.lock"):
            shutil.copy(os.path.join("/repo", f), repo)
        subprocess.run(["git", "init", "-q", "."], cwd=repo)
        p = subprocess.run(["git", "apply", patch], cwd=repo, stdout=subprocess.PIPE, stderr=subprocess.PIPE, text=True)
        meta = json.load(open(os.path.join(d, "meta.json")))
        if meta.get("obsolete"):
            rows.append((sid, "OBSOLETE (no longer breaks the property on the repaired tree)", []))
            continue
        if p.returncode != 0:
            meta["applies_to_current_head"] = False
            meta["caught_by"] = meta.get("caught_by", [])
            json.dump(meta, open(os.path.join(d, "meta.json"), "w"), indent=1)
            rows.append((sid, "PATCH DOES NOT APPLY TO CURRENT HEAD", []))
            continue
        env = dict(os.environ, VERIF_REPO=repo, VERIF_OUT=os.path.join(s, "out"))
        caught, keys = [], []
        for pr in PROPS:
            q = subprocess.run([os.path.join(V, "check"), pr], env=env, stdout=subprocess.PIPE, stderr=subprocess.STDOUT, text=True)
            if "VIOLATION" in q.stdout:
                caught.append(pr)
                rd = os.path.join(s, "out", "reports", pr)
                for f in sorted(os.listdir(rd)):
                    k = json.load(open(os.path.join(rd, f)))["key"]
                    if k not in OPEN_KNOWN:     # open known findings of the unchanged tree are not what the seed triggers
                        keys.append(k)
        meta["applies_to_current_head"] = True
        meta["caught_by"] = caught
        meta["violation_keys"] = keys
        json.dump(meta, open(os.path.join(d, "meta.json"), "w"), indent=1)
        rows.append((sid, " ".join(caught) or "NONE", keys))
    finally:
        shutil.rmtree(s, ignore_errors=True)
for r in rows:
    print("%-8s %-28s %s" % (r[0], r[1], "; ".join(k.split("|", 1)[1] for k in r[2])[:200]))
