#!/usr/bin/env python3
"""tools/mut.py <file> <old> <new> [--count N] -- <props...> : build a one-off patch replacing text in
/repo/<file> (scratch copy) and analyse it with the given property checks. Development aid only."""
import os, subprocess, sys, tempfile, shutil
args = sys.argv[1:]
i = args.index("--")
file, old, new = args[0], args[1], args[2]
props = args[i + 1:]
d = tempfile.mkdtemp(prefix="mut.")
try:
    os.makedirs(os.path.join(d, "a"), exist_ok=True)
    os.makedirs(os.path.join(d, "b"), exist_ok=True)
    for x in ("a", "b"):
        os.makedirs(os.path.dirname(os.path.join(d, x, file)), exist_ok=True)
        shutil.copy(os.path.join("/repo", file), os.path.join(d, x, file))
    s = open(os.path.join(d, "b", file)).read()
    if old not in s:
        print("OLD TEXT NOT FOUND"); sys.exit(2)
    s = s.replace(old, new, 1)
    open(os.path.join(d, "b", file), "w").write(s)
    p = subprocess.run(["diff", "-u", "a/" + file, "b/" + file], cwd=d, stdout=subprocess.PIPE, text=True)
    patch = os.path.join(d, "m.diff")
    open(patch, "w").write(p.stdout)
    if "--save" in args[:i]:
        out = args[args.index("--save") + 1]
        shutil.copy(patch, out)
    subprocess.run([os.path.join(os.path.dirname(os.path.abspath(__file__)), "variant.sh"), patch] + props)
finally:
    shutil.rmtree(d, ignore_errors=True)
