#!/usr/bin/env python3
"""tools/mk_seed_prompt.py <round letter> <prev round letter>: writes /tmp/agentprompts/Cxx<round>.txt for all 19 properties from the
previous round's prompt: same brief, new worktree path, and the titles of every seed stored so far for that property as 'already used'."""
import sys, os, re, glob
new, prev = sys.argv[1], sys.argv[2]
V = os.path.dirname(os.path.dirname(os.path.abspath(__file__)))
for n in range(1, 20):
    pid = "C%02d" % n
    src = "/tmp/agentprompts/%s%s.txt" % (pid, prev)
    if not os.path.exists(src):
        src = os.path.join(V, "tools", "prompts", "%s%s.txt" % (pid, prev))     # the last round's prompts are kept in the repository
    os.makedirs("/tmp/agentprompts", exist_ok=True)
    s = open(src).read()
    s = s.replace("/tmp/wt-%s%s" % (pid, prev), "/tmp/wt-%s%s" % (pid, new))
    titles = []
    for d in sorted(glob.glob(os.path.join(V, "seeded", pid + "-*"))):
        rd = os.path.join(d, "AGENT_README.md")
        if os.path.exists(rd):
            first = open(rd).readline().strip().lstrip("# ").strip()
            titles.append("  - %s: %s" % (os.path.basename(d), first))
    head, rest = s.split("The following ideas have ALREADY been used", 1)
    tail = rest[rest.index("\nDeliverables"):]
    s = head + "The following ideas have ALREADY been used for this property in earlier rounds - do something genuinely different (different function / different mechanism), do not repeat them:\n" + "\n".join(titles) + "\n" + tail
    open("/tmp/agentprompts/%s%s.txt" % (pid, new), "w").write(s)
    print(pid, len(titles), "earlier seeds listed")
