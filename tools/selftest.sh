#!/bin/bash
# Checker self-test: every seeded variant must make its rule fire (static analysis of scratch copies).
cd "$(dirname "$0")/.."
fail=0
for p in C01 C02 C03 C04 C05 C06 C07 C08 C09 C10 C11 C12 C13 C14 C15 C16 C17 C18 C19; do
  out=$(VERIF_OUT=$(mktemp -d /tmp/selftest.XXXX) ./check $p --tier thorough 2>&1)
  echo "$out" | grep -E "SENSITIVITY-WARNING|VIOLATION|thorough:" 
  echo "$out" | grep -q "SENSITIVITY-WARNING\|VIOLATION" && fail=1
done
# behaviour-preserving refactorings must not raise any alarm
for r in variants/refactor-*.diff; do
  for p in C01 C02 C03 C04 C05 C06 C07 C08 C09 C10 C11 C12 C13 C14 C15 C16 C17 C18 C19; do
    out=$(tools/variant.sh "$r" $p 2>&1)
    if echo "$out" | grep -q "VIOLATION\|DOES NOT APPLY"; then echo "FALSE ALARM on $r: $p"; echo "$out" | grep -E "^C[0-9]+/|APPLY" | cut -c1-200; fail=1; fi
  done
  echo "refactoring $r analysed"
done
rm -rf /tmp/selftest.*
exit $fail
