#!/bin/bash
# usage: confirm_k.sh Cxx  -> confirms both seeds of round k for property Cxx, then removes the worktree
P=$1
cd /verif
for n in 1 2; do tools/seed_confirm.sh /tmp/wt-${P}l seed$n ${P}-l$n $P; done > /tmp/sc-${P}l.txt 2>&1
git -C /repo worktree remove --force /tmp/wt-${P}l
echo done >> /tmp/sc-${P}l.txt
