#!/bin/bash
# usage: tools/refactor_eval.sh <worktree> <rN> <id> : behaviour-preserving refactoring from a sub-agent:
# confirms build + 32 lib tests (+doc) with the patch, analyses it with all 19 checks (must be silent), stores it.
set -u
WT=$1; RD=$2; ID=$3
V=$(cd "$(dirname "$0")/.." && pwd)
export CARGO_TARGET_DIR=$WT/target
cd "$WT" || exit 2
git checkout -q -- src
git apply "REFACTOR/$RD/patch.diff" || { echo "PATCH DOES NOT APPLY"; exit 3; }
t1=$(timeout 900 cargo test --offline --lib 2>&1 | grep -E "^test result|^error" | tail -1)
t2=$(timeout 1200 cargo test --offline --doc 2>&1 | grep -E "^test result|^error" | tail -1)
git checkout -q -- src
echo "lib: $t1"; echo "doc: $t2"
cd "$V"
alarms=""
for p in C01 C02 C03 C04 C05 C06 C07 C08 C09 C10 C11 C12 C13 C14 C15 C16 C17 C18 C19; do
  out=$(tools/variant.sh "$WT/REFACTOR/$RD/patch.diff" $p 2>&1)
  if echo "$out" | grep -q "^VIOLATION\|DOES NOT APPLY"; then alarms="$alarms $p"; echo "$out" | grep -E "^C[0-9]+/|APPLY" | cut -c1-300; fi
done
echo "ALARMS:${alarms:- none}"
mkdir -p "variants/agent-refactorings/$ID"
cp "$WT/REFACTOR/$RD/patch.diff" "$WT/REFACTOR/$RD/README.md" "variants/agent-refactorings/$ID/"
