#!/bin/bash
# usage: tools/variant.sh <patch.diff> <Cxx> [<Cxx>...]   -- analyse a patched scratch copy of /repo (never runs it)
set -u
PATCH=$(readlink -f "$1"); shift
V=$(cd "$(dirname "$0")/.." && pwd)
S=$(mktemp -d /tmp/vrepo.XXXXXX)
mkdir -p "$S/repo" "$S/out"
cp -r /repo/src /repo/Cargo.toml "$S/repo/"
[ -f /repo/Cargo.lock ] && cp /repo/Cargo.lock "$S/repo/"
( cd "$S/repo" && git init -q . && git apply "$PATCH" ) || { echo "PATCH DOES NOT APPLY: $PATCH"; rm -rf "$S"; exit 3; }
rc=0
for p in "$@"; do
  VERIF_REPO="$S/repo" VERIF_OUT="$S/out" "$V/check" "$p" ${TIER:+--tier $TIER} ${CONFIGS:+--configs $CONFIGS} 2>&1 | grep -E "VIOLATION|KNOWN-FINDING|^C[0-9]+/| quick:| thorough:|Error|error" | cut -c1-400
done
rm -rf "$S"
