#!/bin/bash
# usage: tools/mkvariant.sh <patch.diff> <name>  -> /tmp/vr-<name>/repo (patched copy of /repo's sources), /tmp/vr-<name>/out
P=$(readlink -f "$1"); N=$2
S=/tmp/vr-$N; rm -rf $S; mkdir -p $S/repo $S/out
cp -r /repo/src /repo/Cargo.toml /repo/Cargo.lock $S/repo/
( cd $S/repo && git init -q . && git apply "$P" ) || { echo "PATCH DOES NOT APPLY"; exit 3; }
echo "VERIF_REPO=$S/repo VERIF_OUT=$S/out"
