#!/bin/bash
# usage: tools/seed_eval.sh <worktree> <seed dir name> <seed id> <prop>
# 1. confirms the seed in the scratch worktree (demo passes without the patch; with it: build ok, 32 lib tests pass, demo fails)
# 2. analyses the patched copy with all 19 checks (static), 3. stores the seed under /verif/seeded/<seed id>/
set -u
WT=$1; SD=$2; ID=$3; PROP=$4
V=$(cd "$(dirname "$0")/.." && pwd)
export CARGO_TARGET_DIR=$WT/target
cd "$WT" || exit 2
git checkout -q -- src
cp "SEED/$SD/demo.rs" tests/demo.rs 2>/dev/null || { mkdir -p tests; cp "SEED/$SD/demo.rs" tests/demo.rs; }
t0=$(timeout 900 cargo test --offline --test demo 2>&1 | grep -E "^test result" | tail -1)
git apply "SEED/$SD/patch.diff" || { echo "PATCH DOES NOT APPLY"; exit 3; }
b=$(cargo build --offline 2>&1 | tail -1)
t1=$(timeout 900 cargo test --offline --lib 2>&1 | grep -E "^test result" | tail -1)
t1d=$(timeout 1200 cargo test --offline --doc 2>&1 | grep -E "^test result" | tail -1)
t2=$(timeout 900 cargo test --offline --test demo 2>&1 | grep -E "^test result|panicked|timed out" | tail -2 | tr '\n' ' ')
git checkout -q -- src
echo "demo without patch : $t0"
echo "build with patch   : $b"
echo "lib tests w/ patch : $t1"
echo "doc tests w/ patch : $t1d"
echo "demo with patch    : $t2"
cd "$V"
caught=""
for p in C01 C02 C03 C04 C05 C06 C07 C08 C09 C10 C11 C12 C13 C14 C15 C16 C17 C18 C19; do
  out=$(tools/variant.sh "$WT/SEED/$SD/patch.diff" $p 2>&1)
  n=$(echo "$out" | grep -c "^VIOLATION")
  if [ "$n" != "0" ]; then caught="$caught $p"; echo "$out" | grep -E "^C[0-9]+/" | cut -c1-330; fi
done
echo "CAUGHT BY:${caught:- none}"
mkdir -p "seeded/$ID"
cp "$WT/SEED/$SD/patch.diff" "$WT/SEED/$SD/demo.rs" "seeded/$ID/"
cp "$WT/SEED/$SD/README.md" "seeded/$ID/AGENT_README.md" 2>/dev/null
python3 - "$ID" "$PROP" "$t0" "$t1" "$t1d" "$t2" "$caught" <<'PY'
import json,sys
i,prop,t0,t1,t1d,t2,caught=sys.argv[1:8]
json.dump({"id":i,"property":prop,"origin":"independent sub-agent given only the property text and a scratch worktree",
 "confirmed":{"demo_without_patch":t0,"lib_tests_with_patch":t1,"doc_tests_with_patch":t1d,"demo_with_patch":t2},
 "what_i_ran":"tools/seed_eval.sh (cargo test --offline --test demo without/with the patch in the scratch worktree; cargo test --offline --lib/--doc with the patch; tools/variant.sh <patch> for all 19 checks)",
 "caught_by":caught.split(),"needs":"see AGENT_README.md"}, open("/verif/seeded/%s/meta.json"%i,"w"), indent=1)
PY
