#!/usr/bin/env python3
"""Regenerates rules/census_table.json from the CURRENT /repo tree (union over the quick configurations).
Only to be run on a tree whose census was read and confirmed by hand (the pinned, repaired tree)."""
import json, os, sys
V = os.path.dirname(os.path.dirname(os.path.abspath(__file__)))
sys.path.insert(0, V)
from rules import engine, census
from rules.facts import Facts
tab = {"fns": {}}
for cfg in engine.QUICK_CONFIGS:
    path, th, fresh = engine.export_facts(cfg)
    f = Facts(path)
    t = census.dump_table(census.census_of(f))
    for e, d in t["fns"].items():
        de = tab["fns"].setdefault(e, {})
        for k, rows in d.items():
            cur = de.setdefault(k, [])
            for r in rows:
                if r not in cur:
                    cur.append(r)
out = sys.argv[1] if len(sys.argv) > 1 else census.TABLE
json.dump(tab, open(out, "w"), indent=1, sort_keys=True)
n = sum(len(v) for d in tab["fns"].values() for v in d.values())
print("functions", len(tab["fns"]), "leaf keys", sum(len(d) for d in tab["fns"].values()), "instances", n)
