#!/usr/bin/env python3
"""Rewrites section 10 of DESIGN.md (between the markers) from /verif/seeded/*/meta.json."""
import json, os, re
V = os.path.dirname(os.path.dirname(os.path.abspath(__file__)))
rows = []
for sid in sorted(os.listdir(os.path.join(V, "seeded"))):
    mp = os.path.join(V, "seeded", sid, "meta.json")
    if not os.path.exists(mp):
        continue
    m = json.load(open(mp))
    rd = os.path.join(V, "seeded", sid, "AGENT_README.md")
    title = ""
    if os.path.exists(rd):
        title = open(rd).read().strip().split("\n")[0].lstrip("# ").strip()
    title = re.sub(r"\s+", " ", title)[:150]
    keys = m.get("violation_keys", [])
    rules = sorted({"%s/%s" % (k.split("|")[0], k.split("|")[1]) for k in keys})
    if m.get("obsolete"):
        rows.append("| %s | %s | %s | %s | %s |" % (sid, m.get("property"), title.replace("|", "/"), "(obsolete)", "no longer breaks the property since repair e43f3d3 (demo passes with the patch)"))
        continue
    rows.append("| %s | %s | %s | %s | %s |" % (sid, m.get("property"), title.replace("|", "/"), " ".join(m.get("caught_by", [])) or "**none**", ", ".join(rules)))
tab = "| seed | targets | change (agent's title) | caught by | rules that fire |\n|---|---|---|---|---|\n" + "\n".join(rows)
p = os.path.join(V, "DESIGN.md")
s = open(p).read()
a, b = "<!-- CATCH-TABLE-BEGIN -->", "<!-- CATCH-TABLE-END -->"
if a in s:
    s = s[:s.index(a) + len(a)] + "\n" + tab + "\n" + s[s.index(b):]
    open(p, "w").write(s)
print(len(rows), "seeds")
