#!/usr/bin/env python3
"""Parallel re-analysis of patches with all 19 checks (static analysis only; nothing is run).

usage: tools/par_matrix.py seeds [ids...]        -- every stored seed; rewrites seeded/<id>/meta.json (caught_by, violation_keys)
       tools/par_matrix.py refactorings [names..] -- every stored behaviour-preserving refactoring; any VIOLATION is a false alarm
       tools/par_matrix.py patch <file> [...]     -- ad-hoc patches
Each worker owns a private copy of the dependency target directory (VERIF_CACHE) under /tmp, removed at the end, so exports
do not serialise on /verif/.cache's lock.  Workers: $PAR_WORKERS (default 8)."""
import glob, json, os, re, shutil, subprocess, sys, tempfile
from concurrent.futures import ThreadPoolExecutor
import queue

V = os.path.dirname(os.path.dirname(os.path.abspath(__file__)))
PROPS = ["C%02d" % i for i in range(1, 20)]
NW = int(os.environ.get("PAR_WORKERS", "8"))

OPEN_KNOWN = set()
for line in open(os.path.join(V, "known_findings.txt")):
    m_ = re.match(r"open:\s+property=(\S+)\s+key=(\S+)", line.strip())
    if m_:
        OPEN_KNOWN.add(m_.group(2))


def analyse(patch, cache, props=PROPS):
    """returns (applies, caught, keys, human lines)"""
    s = tempfile.mkdtemp(prefix="parmx.")
    try:
        repo = os.path.join(s, "repo")
        os.makedirs(repo)
        shutil.copytree("/repo/src", os.path.join(repo, "src"))
        for f in ("Cargo.toml", "Cargo.lock"):
            shutil.copy(os.path.join("/repo", f), repo)
        subprocess.run(["git", "init", "-q", "."], cwd=repo)
        p = subprocess.run(["git", "apply", patch], cwd=repo, stdout=subprocess.PIPE, stderr=subprocess.PIPE, text=True)
        if p.returncode != 0:
            return False, [], [], [p.stderr.strip()[:300]]
        env = dict(os.environ, VERIF_REPO=repo, VERIF_OUT=os.path.join(s, "out"), VERIF_CACHE=cache)
        caught, keys, lines = [], [], []
        for pr in props:
            q = subprocess.run([os.path.join(V, "check"), pr], env=env, stdout=subprocess.PIPE, stderr=subprocess.STDOUT, text=True)
            if "VIOLATION" in q.stdout or q.returncode != 0:
                rd = os.path.join(s, "out", "reports", pr)
                ks = []
                if os.path.isdir(rd):
                    for f in sorted(os.listdir(rd)):
                        k = json.load(open(os.path.join(rd, f)))["key"]
                        if k not in OPEN_KNOWN:
                            ks.append(k)
                if ks or q.returncode != 0:
                    caught.append(pr)
                    keys += ks
                    lines += [l[:300] for l in q.stdout.splitlines() if re.match(r"^C[0-9]+/", l) or "Traceback" in l or "Error" in l]
        return True, caught, keys, lines
    finally:
        shutil.rmtree(s, ignore_errors=True)


def main():
    mode = sys.argv[1]
    only = sys.argv[2:]
    items = []
    if mode == "seeds":
        for sid in sorted(os.listdir(os.path.join(V, "seeded"))):
            if only and sid not in only:
                continue
            pf = os.path.join(V, "seeded", sid, "patch.diff")
            if os.path.exists(pf):
                items.append((sid, pf))
    elif mode == "refactorings":
        for r in sorted(glob.glob(os.path.join(V, "variants", "refactor-*.diff")) +
                        glob.glob(os.path.join(V, "variants", "agent-refactorings", "*", "patch.diff"))):
            name = os.path.relpath(r, os.path.join(V, "variants"))
            if only and not any(o in name for o in only):
                continue
            items.append((name, r))
    else:
        items = [(os.path.basename(os.path.dirname(os.path.abspath(f))) + "/" + os.path.basename(f), os.path.abspath(f)) for f in only]
    caches = queue.Queue()
    made = []
    base_target = os.path.join(V, ".cache", "target")
    for i in range(min(NW, max(1, len(items)))):
        c = tempfile.mkdtemp(prefix="parcache.")
        made.append(c)
        if os.path.isdir(base_target):
            subprocess.run(["cp", "-r", base_target, os.path.join(c, "target")])
        caches.put(c)

    def work(it):
        name, patch = it
        c = caches.get()
        try:
            if mode == "seeds":
                meta = json.load(open(os.path.join(V, "seeded", name, "meta.json")))
                if meta.get("obsolete"):
                    return name, "OBSOLETE", [], []
            r = analyse(patch, c)
            return (name,) + tuple(r)
        finally:
            caches.put(c)

    rc = 0
    try:
        with ThreadPoolExecutor(max_workers=len(made)) as ex:
            for res in ex.map(work, items):
                name = res[0]
                if res[1] == "OBSOLETE":
                    print("%-10s OBSOLETE" % name, flush=True)
                    continue
                _, applies, caught, keys, lines = res
                if mode == "seeds":
                    mp = os.path.join(V, "seeded", name, "meta.json")
                    meta = json.load(open(mp))
                    meta["applies_to_current_head"] = bool(applies)
                    if applies:
                        meta["caught_by"] = caught
                        meta["violation_keys"] = keys
                    json.dump(meta, open(mp, "w"), indent=1)
                if not applies:
                    print("%-10s PATCH DOES NOT APPLY %s" % (name, lines[:1]), flush=True)
                    continue
                if mode == "seeds":
                    print("%-10s %-24s %s" % (name, " ".join(caught) or "NONE", "; ".join(k.split("|", 1)[1] for k in keys)[:220]), flush=True)
                    if not caught:
                        rc = 1
                else:
                    print("%-40s %s" % (name, ("ALARM " + " ".join(caught)) if caught else "silent"), flush=True)
                    for l in lines:
                        print("     " + l, flush=True)
                    if caught and mode == "refactorings":
                        rc = 1
    finally:
        for c in made:
            shutil.rmtree(c, ignore_errors=True)
    sys.exit(rc)


if __name__ == "__main__":
    main()
