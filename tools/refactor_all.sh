#!/bin/bash
# runs every stored behaviour-preserving refactoring (mine + sub-agents') through the given checks (default: all);
# any VIOLATION is a false alarm of the checker
cd "$(dirname "$0")/.."
PROPS=${@:-C01 C02 C03 C04 C05 C06 C07 C08 C09 C10 C11 C12 C13 C14 C15 C16 C17 C18 C19}
fail=0
for r in variants/refactor-*.diff variants/agent-refactorings/*/patch.diff; do
  S=$(mktemp -d /tmp/vrepo.XXXXXX); mkdir -p $S/repo $S/out
  cp -r /repo/src /repo/Cargo.toml /repo/Cargo.lock $S/repo/
  ( cd $S/repo && git init -q . && git apply "$OLDPWD/$r" ) 2>/dev/null || { echo "SKIP (does not apply): $r"; rm -rf $S; continue; }
  al=""
  for p in $PROPS; do
    out=$(VERIF_REPO=$S/repo VERIF_OUT=$S/out ./check $p 2>&1)
    if echo "$out" | grep -q "^VIOLATION"; then al="$al $p"; echo "$out" | grep -E "^C[0-9]+/" | cut -c1-260 | sed "s|^|   |"; fi
  done
  echo "$r :${al:- silent}"
  [ -n "$al" ] && fail=1
  rm -rf $S
done
exit $fail
