#!/usr/bin/env python3
"""tools/dump.py <path substring> [config] : pretty-print the MIR of matching bodies of /repo's current tree"""
import sys, os
sys.path.insert(0, os.path.dirname(os.path.dirname(os.path.abspath(__file__))))
from rules import engine
from rules.facts import Facts
p, th, _ = engine.export_facts(sys.argv[2] if len(sys.argv) > 2 else "all")
f = Facts(p)
for b in f.bodies:
    if sys.argv[1] in b.path:
        print(b.dump()); print()
