#!/usr/bin/env python3
"""Regenerates /verif/MANIFEST.json from the rule modules that exist (rules/props/cXX.py)."""
import importlib
import json
import os
import sys

V = os.path.dirname(os.path.dirname(os.path.abspath(__file__)))
sys.path.insert(0, V)

PENDING = "no sound static rule built for this property yet at this commit (see DESIGN.md section 3 for the planned clauses)"
NA = {}
try:
    NA = json.load(open(os.path.join(V, "tools", "not_applicable.json")))
except Exception:
    pass

props = [json.loads(l) for l in open(os.path.join(V, "properties.jsonl"))]
checks, na = [], []
for p in props:
    pid = p["id"]
    modp = os.path.join(V, "rules", "props", pid.lower() + ".py")
    if pid in NA:
        na.append({"property_id": pid, "reason": NA[pid]})
        continue
    if not os.path.exists(modp):
        na.append({"property_id": pid, "reason": PENDING})
        continue
    m = importlib.import_module("rules.props." + pid.lower())
    checks.append({
        "property_id": pid,
        "quick_cmd": "./check %s --tier quick" % pid,
        "thorough_cmd": "./check %s --tier thorough" % pid,
        "evidence_file": "/verif/evidence/%s.json" % pid,
        "replay_cmd_template": "./check %s --replay {path}" % pid,
        "engine": "mirfacts+rules",
        "level_claimed": {"category": "other", "text": m.TEXT, "design_ref": "DESIGN.md section 3, " + pid},
        "level_note": "Trusted base: " + "; ".join(m.TRUSTED),
        "technique": getattr(m, "TECHNIQUE", "static analysis: custom rules over rustc MIR (dominance, dataflow, call graph)"),
    })
man = {
    "version": 1,
    "setup_cmd": "cd /verif/mirfacts && cargo build --release --offline && cd /verif && ./check warm",
    "hooks": {
        "guard": "melda_verif",
        "enable": "none needed: the checks read the unmodified source through a rustc_private driver (RUSTC_WORKSPACE_WRAPPER under cargo +nightly check); no cfg-guarded code was added to the repository",
        "baseline_off_cmd": "cd /repo && cargo nextest run --workspace --no-fail-fast --offline || cargo test --workspace --no-fail-fast --offline",
        "source_commits": [],
        "add_only": True,
    },
    "engines": [
        {"name": "mirfacts", "path": "/verif/mirfacts", "serves_properties": [c["property_id"] for c in checks],
         "kind_free_text": "rustc_private driver (nightly) exporting MIR, resolved callees, constants, ADTs and trait impls of crate melda as JSON, one file per cargo feature configuration"},
        {"name": "rules", "path": "/verif/rules", "serves_properties": [c["property_id"] for c in checks],
         "kind_free_text": "Python 3 (stdlib only) static analyses over the fact base: CFG/edge dominance, value provenance, held-guard dataflow, call graph, effect summaries, constant/table agreement"},
    ],
    "checks": checks,
    "not_applicable": na,
    "notes": "Static analysis only: no registered check executes libmelda code. Genuine defects found by the rules were repaired in /repo with 'fix:' commits and are listed in /verif/known_findings.txt.",
}
json.dump(man, open(os.path.join(V, "MANIFEST.json"), "w"), indent=1)
print("checks:", [c["property_id"] for c in checks], "n/a:", len(na))
