#!/usr/bin/env python3
"""tools/lits.py <variant name or '-'> <body path substring> [callee-name filter]: for each call site of the matching bodies,
print the literals (dominating / implied branch facts) the rules see there.  Development aid."""
import sys, os
sys.path.insert(0, os.path.dirname(os.path.dirname(os.path.abspath(__file__))))
if sys.argv[1] != "-":
    os.environ["VERIF_REPO"] = "/tmp/vr-%s/repo" % sys.argv[1]
    os.environ["VERIF_OUT"] = "/tmp/vr-%s/out" % sys.argv[1]
from rules import engine
from rules.facts import Facts
from rules.conds import lits_of
p, th, _ = engine.export_facts(os.environ.get("CFG", "default"))
f = Facts(p)
flt = sys.argv[3] if len(sys.argv) > 3 else None
for b in f.bodies:
    if sys.argv[2] in b.path:
        print("==", b.path)
        for bi, t in b.calls():
            if t.callee is None or (flt and flt not in t.callee.name):
                continue
            print("  bb%d L%d %s" % (bi, t.line, t.callee.name))
            for l in lits_of(b, bi, f):
                print("       ", repr(l)[:200], "(implied)" if l.implied else "")
